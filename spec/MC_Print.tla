------------------------------ MODULE MC_Print ------------------------------
(* D-level: over all histories of up to MaxStmts PRINT statements built from a   *)
(* small alphabet of items and separators across the devices: the column is the   *)
(* number of characters since the last break on that device, a comma lands on a    *)
(* multiple of 14, a statement only touches its own device.                        *)
EXTENDS Print, TLC

CONSTANT MaxStmts

Items == { [k |-> "num", v |-> 5], [k |-> "num", v |-> 0 - 12], [k |-> "str", v |-> <<>>], [k |-> "str", v |-> <<97>>],
           [k |-> "str", v |-> <<97, 13, 98>>], [k |-> "str", v |-> [i \in 1..13 |-> 120]],
           [k |-> "str", v |-> [i \in 1..14 |-> 121]], [k |-> "str", v |-> [i \in 1..15 |-> 122]] }
Seps == { [k |-> "sep", s |-> ";"], [k |-> "sep", s |-> ","] }

\* item lists: [sep] item (sep item)? [sep]
Lists == UNION { {<<>>}, {<<a>> : a \in Items}, {<<s>> : s \in Seps},
                 {<<a, s>> : a \in Items, s \in Seps}, {<<s, a>> : s \in Seps, a \in Items},
                 {<<a, s, b>> : a \in Items, s \in Seps, b \in {[k |-> "num", v |-> 5], [k |-> "str", v |-> <<97>>]}},
                 {<<s, t>> : s \in Seps, t \in Seps} }

VARIABLES st, n, last
vars == <<st, n, last>>
Init == st = Init0 /\ n = 0 /\ last = [dev |-> "scr", items |-> <<>>, before |-> Init0]
Next == /\ n < MaxStmts
        /\ \E d \in {"scr", "lpt", "f1"}, l \in Lists :
             /\ st' = Stmt(st, [dev |-> d, items |-> l])
             /\ last' = [dev |-> d, items |-> l, before |-> st]
        /\ n' = n + 1
Spec == Init /\ [][Next]_vars

ColumnOK == ColOK(st)
\* the statement touched only its own device
OtherDevicesUntouched ==
  \A d \in Devices : d # last.dev => st.out[d] = last.before.out[d] /\ st.col[d] = last.before.col[d]
\* after a comma as the last item the column is a multiple of 14
CommaLandsOnZone ==
  (last.items # <<>> /\ last.items[Len(last.items)] = [k |-> "sep", s |-> ","]) => st.col[last.dev] % Zone = 0
\* a statement that does not end in a separator ends the line
LineEnds ==
  (n > 0 /\ ~EndsWithSep(last.items)) => st.col[last.dev] = 0
=============================================================================
