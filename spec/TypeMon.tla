------------------------------ MODULE TypeMon ------------------------------
(* Monitor for C06: every value found in a numeric variable, array element or   *)
(* parameter of the running interpreter is a value of the variable's type.      *)
(* It constrains the value and the type the machine computes with (the tag).      *)
(* Record: [id, q (declared type of the variable), tag, whole, finite, fits32, v,  *)
(*          sx (the value is exactly representable as a SINGLE)]                    *)
EXTENDS Values, Json, IOUtils, TLC

Recs == ndJsonDeserialize(IOEnv.TRACE)

VARIABLE idx
Init == idx \in 1..Len(Recs)
Next == UNCHANGED idx
Spec == Init /\ [][Next]_idx

\* The tag of the stored variant is the TYPE of the value for every operator of this machine (the result type of an
\* operation is computed from the tags of its operands - Values.ResType, validated instruction by instruction by
\* Trace_VM): a DOUBLE variable that holds VInteger(1) divides in SINGLE precision (x# / 3 = .33333334) and overflows
\* in the LONG range (x# * x# * x#).  "Storing a value of another numeric type converts it": the tag must be the
\* variable's own.
OfType(r) ==
  /\ r.tag = r.q
  /\ CASE r.q = "I" -> r.whole /\ r.fits32 /\ InRange("I", r.v)
        [] r.q = "L" -> r.whole /\ r.fits32 /\ InRange("L", r.v)
        [] r.q = "S" -> r.finite /\ r.sx          \* a SINGLE variable holds a SINGLE value, not a wider one
        [] r.q = "D" -> r.finite
        [] OTHER -> TRUE

Verdict == IF OfType(Recs[idx]) THEN TRUE ELSE PrintT("MISMATCH " \o ToString(Recs[idx].id))
=============================================================================
