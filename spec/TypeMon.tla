------------------------------ MODULE TypeMon ------------------------------
(* Monitor for C06: every value found in a numeric variable, array element or   *)
(* parameter of the running interpreter is a value of the variable's type.      *)
(* It constrains only what the property says (the value, not the variant tag).   *)
(* Record: [id, q (declared type of the variable), tag, whole, finite, fits32, v,  *)
(*          sx (the value is exactly representable as a SINGLE)]                    *)
EXTENDS Values, Json, IOUtils, TLC

Recs == ndJsonDeserialize(IOEnv.TRACE)

VARIABLE idx
Init == idx \in 1..Len(Recs)
Next == UNCHANGED idx
Spec == Init /\ [][Next]_idx

OfType(r) ==
  CASE r.q = "I" -> r.whole /\ r.fits32 /\ InRange("I", r.v)
    [] r.q = "L" -> r.whole /\ r.fits32 /\ InRange("L", r.v)
    [] r.q = "S" -> r.finite /\ r.sx          \* a SINGLE variable holds a SINGLE value, not a wider one
    [] r.q = "D" -> r.finite
    [] OTHER -> TRUE

Verdict == IF OfType(Recs[idx]) THEN TRUE ELSE PrintT("MISMATCH " \o ToString(Recs[idx].id))
=============================================================================
