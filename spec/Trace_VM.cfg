SPECIFICATION Spec
INVARIANT Verdict
CHECK_DEADLOCK FALSE
